From Coq Require Import List Arith Bool Lia Reals Lra.
Import ListNotations.
From KV Require Import Model.Mat Model.Precond Model.Shard Proofs.MatP.

(* ---------- split / gather (any element type) ---------- *)
Lemma gather_split_cols {T} w (A : @mat T) i c : 0 < w ->
  gather_cols w (fun j => split_cols w j A) i c = A i c.
Proof.
  intros Hw. unfold gather_cols, split_cols. f_equal.
  pose proof (Nat.div_mod c w ltac:(lia)). lia.
Qed.

Lemma split_gather_cols {T} w (As : nat -> @mat T) j i c : c < w ->
  split_cols w j (gather_cols w As) i c = As j i c.
Proof.
  intros Hc. unfold gather_cols, split_cols.
  rewrite Nat.div_add_l by lia. rewrite (Nat.div_small c w Hc), Nat.add_0_r.
  rewrite Nat.add_comm, Nat.mod_add by lia. now rewrite Nat.mod_small.
Qed.

Lemma gather_split_rows {T} h (A : @mat T) i c : 0 < h ->
  gather_rows h (fun j => split_rows h j A) i c = A i c.
Proof.
  intros Hh. unfold gather_rows, split_rows. f_equal.
  pose proof (Nat.div_mod i h ltac:(lia)). lia.
Qed.

Lemma split_gather_rows {T} h (As : nat -> @mat T) j i c : i < h ->
  split_rows h j (gather_rows h As) i c = As j i c.
Proof.
  intros Hi. unfold gather_rows, split_rows.
  rewrite Nat.div_add_l by lia. rewrite (Nat.div_small i h Hi), Nat.add_0_r.
  rewrite Nat.add_comm, Nat.mod_add by lia. now rewrite Nat.mod_small.
Qed.

(* ---------- reduce_scatter with one non-zero contributor is a scatter ---------- *)
Local Open Scope R_scope.
Lemma sumR_single M p (f : nat -> R) : (p < M)%nat -> (forall r, (r < M)%nat -> r <> p -> f r = 0) -> sumR M f = f p.
Proof.
  intros Hp Hz.
  rewrite (sumR_ext M f (fun r => (if Nat.eqb p r then 1 else 0) * f p)).
  - rewrite (sumR_delta_l M p (fun _ => f p) Hp). reflexivity.
  - intros r Hr. destruct (Nat.eqb_spec p r) as [->|Hne]; [lra|]. rewrite Hz by auto. lra.
Qed.

Lemma reduce_scatter_as_scatter_l par M m n (V : @mat R) primary j i c : (primary < M)%nat ->
  reduce_scatter ops_R M (contributions ops_R par M m n V primary) j i c
  = match par with ParInput => split_cols (n / M) j V i c | ParOutput => split_rows (m / M) j V i c end.
Proof.
  intros Hp. unfold reduce_scatter.
  rewrite (sumR_single M primary).
  - unfold contributions. rewrite Nat.eqb_refl. destruct par; reflexivity.
  - exact Hp.
  - intros r Hr Hne. unfold contributions. destruct (Nat.eqb_spec r primary); [contradiction|]. unfold mzero. reflexivity.
Qed.

(* ---------- the assembled gradient is the unsharded one ---------- *)
(* row-parallel (input): weight gradient shards are the column blocks of the unsharded gradient, bias replicated *)
Lemma assemble_input_l M m n (Wfull : @mat R) (b : @vec R) primary i c : (0 < n / M)%nat ->
  assemble ParInput M m n true (fun j => split_cols (n / M) j Wfull) (fun _ => b) primary i c
  = get_grad true n Wfull b i c.
Proof.
  intros Hw. unfold assemble, get_grad, hcat. destruct (Nat.ltb c n); [|reflexivity].
  now apply gather_split_cols.
Qed.

(* column-parallel (output): weight and bias shards are row blocks *)
Lemma assemble_output_l M m n (Wfull : @mat R) (b : @vec R) primary i c : (0 < m / M)%nat ->
  assemble ParOutput M m n true (fun j => split_rows (m / M) j Wfull) (fun j k => b (j * (m / M) + k)%nat) primary i c
  = get_grad true n Wfull b i c.
Proof.
  intros Hh. unfold assemble, get_grad, hcat. destruct (Nat.ltb c n).
  - now apply gather_split_rows.
  - f_equal. pose proof (Nat.div_mod i (m / M) ltac:(lia)). lia.
Qed.

(* ---------- every rank ends with exactly its shard of the unsharded result ---------- *)
Lemma shard_input_l M m n (V : @mat R) j i c : (c < n / M)%nat ->
  shard_of_V ParInput M m n true V j i c = V i (j * (n / M) + c)%nat.
Proof. intros Hc. unfold shard_of_V, split_cols. apply Nat.ltb_lt in Hc. now rewrite Hc. Qed.

Lemma shard_input_bias_l M m n (V : @mat R) j i : shard_of_V ParInput M m n true V j i (n / M)%nat = V i n.
Proof. unfold shard_of_V. now rewrite Nat.ltb_irrefl. Qed.

Lemma shard_output_l M m n hb (V : @mat R) j i c : shard_of_V ParOutput M m n hb V j i c = V (j * (m / M) + i)%nat c.
Proof. reflexivity. Qed.

(* reassembling the shards gives back V *)
Lemma shards_reassemble_output M m n hb (V : @mat R) i c : (0 < m / M)%nat ->
  gather_rows (m / M) (fun j => shard_of_V ParOutput M m n hb V j) i c = V i c.
Proof. intros H. unfold shard_of_V. now apply gather_split_rows. Qed.

Lemma shards_reassemble_input M m n (V : @mat R) i c : (0 < n / M)%nat -> (c < M * (n / M))%nat ->
  gather_cols (n / M) (fun j => shard_of_V ParInput M m n true V j) i c = V i c.
Proof.
  intros H Hc. unfold gather_cols, shard_of_V.
  assert (Hm : (c mod (n / M) < n / M)%nat) by (apply Nat.mod_upper_bound; lia).
  apply Nat.ltb_lt in Hm. rewrite Hm. unfold split_cols. f_equal.
  pose proof (Nat.div_mod c (n / M) ltac:(lia)). lia.
Qed.

(* the clip scale computed from LOCAL shards is not the unsharded one (M = 2): finding D10 *)
From KV Require Import Model.Clip Proofs.ClipP.
Lemma clip_sharded_refuted_l :
  let V := (fun _ _ => 1) : @mat R in let D := (fun _ _ => 1) : @mat R in
  let full := mkCL 1 2 false V D in                       (* one row, two weight columns *)
  let local := mkCL 1 1 false V D in                      (* what one of two model-parallel ranks sees *)
  vg_sumR 1 [full] = 2 /\ vg_sumR 1 [local] = 1 /\ nuR 1 (vg_sumR 1 [local]) = 1 /\ nuR 1 (vg_sumR 1 [full]) < 1.
Proof.
  cbv zeta. assert (E2 : vg_sumR 1 [mkCL 1 2 false (fun _ _ => 1) (fun _ _ => 1)] = 2) by (unfold vg_sum, weight_sum; simpl; lra).
  assert (E1 : vg_sumR 1 [mkCL 1 1 false (fun _ _ => 1) (fun _ _ => 1)] = 1) by (unfold vg_sum, weight_sum; simpl; lra).
  rewrite E2, E1. repeat split.
  - rewrite nu_formula_l by lra. rewrite Rabs_right by lra. replace (1 / 1) with 1 by lra. rewrite sqrt_1. apply Rmin_left. lra.
  - rewrite nu_formula_l by lra. rewrite Rabs_right by lra.
    assert (sqrt (1 / 2) < 1) by (rewrite <- sqrt_1 at 2; apply sqrt_lt_1; lra).
    rewrite Rmin_right by lra. assumption.
Qed.
