(* Driver for the extracted Coq models.  One case per input line:
     <command> <value>
   where <value> is a JSON-like term built from integers, "strings" and
   [lists].  One result per output line, same syntax.  Trusted glue. *)
open Model

type v = I of int | S of string | L of v list

(* ---------- parsing ---------- *)
let parse (s : string) : v =
  let n = String.length s in
  let pos = ref 0 in
  let peek () = if !pos < n then s.[!pos] else '\000' in
  let rec skip () = if !pos < n && (s.[!pos] = ' ' || s.[!pos] = ',') then (incr pos; skip ()) in
  let rec value () =
    skip ();
    match peek () with
    | '[' -> incr pos; let items = ref [] in
        let rec loop () = skip ();
          if peek () = ']' then incr pos
          else (items := value () :: !items; loop ()) in
        loop (); L (List.rev !items)
    | '"' -> incr pos; let st = !pos in
        while peek () <> '"' do incr pos done;
        let r = String.sub s st (!pos - st) in incr pos; S r
    | _ -> let st = !pos in
        if peek () = '-' then incr pos;
        while (let c = peek () in c >= '0' && c <= '9') do incr pos done;
        if !pos = st then failwith ("parse error at " ^ string_of_int st);
        I (int_of_string (String.sub s st (!pos - st)))
  in value ()

let rec show (b : Buffer.t) (x : v) : unit =
  match x with
  | I i -> Buffer.add_string b (string_of_int i)
  | S s -> Buffer.add_char b '"'; Buffer.add_string b s; Buffer.add_char b '"'
  | L l -> Buffer.add_char b '[';
      List.iteri (fun k y -> if k > 0 then Buffer.add_char b ','; show b y) l;
      Buffer.add_char b ']'

(* ---------- conversions ---------- *)
let rec nat_of_int (i : int) : nat = if i <= 0 then O else Model.S (nat_of_int (i - 1))
let nat_of_int (i : int) : nat =
  let rec go acc k = if k <= 0 then acc else go (Model.S acc) (k - 1) in go O i
let int_of_nat (n : nat) : int =
  let rec go acc = function O -> acc | Model.S m -> go (acc + 1) m in go 0 n

(* Z <-> int (binary positives) *)
let rec pos_of_int (i : int) : positive =
  if i <= 1 then XH else if i land 1 = 0 then XO (pos_of_int (i lsr 1)) else XI (pos_of_int (i lsr 1))
let z_of_int (i : int) : z = if i = 0 then Z0 else if i > 0 then Zpos (pos_of_int i) else Zneg (pos_of_int (-i))
let rec int_of_pos = function XH -> 1 | XO p -> 2 * int_of_pos p | XI p -> 2 * int_of_pos p + 1
let int_of_z = function Z0 -> 0 | Zpos p -> int_of_pos p | Zneg p -> - (int_of_pos p)

let geti = function I i -> i | _ -> failwith "int expected"
let getl = function L l -> l | _ -> failwith "list expected"
let gets = function S s -> s | _ -> failwith "string expected"
let vnat n = I (int_of_nat n)
let vbool b = I (if b then 1 else 0)
let vlist f l = L (List.map f l)

(* ---------- IEEE double reading of the arithmetic record ---------- *)
let fops : float ops = {
  o0 = 0.0; o1 = 1.0;
  oadd = (fun a b -> a +. b); omul = (fun a b -> a *. b); osub = (fun a b -> a -. b); odiv = (fun a b -> a /. b);
  omax0 = (fun a -> if a > 0.0 then a else 0.0);        (* torch.clamp(x, min=0): NaN propagates in torch; not exercised *)
  osqrt = sqrt; oabs = abs_float; omin = (fun a b -> if b < a then b else a);
  oeq0 = (fun a -> a = 0.0);
  oofnat = (fun n -> float_of_int (int_of_nat n)) }
let getf = function S s -> float_of_string s | I i -> float_of_int i | _ -> failwith "float expected"
let vf (x : float) = S (Printf.sprintf "%h" x)
let mat_of v : nat -> nat -> float =
  let a = Array.of_list (List.map (fun r -> Array.of_list (List.map getf (getl r))) (getl v)) in
  fun i j -> let i = int_of_nat i and j = int_of_nat j in
    if i < Array.length a && j < Array.length a.(i) then a.(i).(j) else 0.0
let vec_of v : nat -> float =
  let a = Array.of_list (List.map getf (getl v)) in
  fun i -> let i = int_of_nat i in if i < Array.length a then a.(i) else 0.0
let vmat m n (a : nat -> nat -> float) = vlist (vlist vf) (to_list (nat_of_int m) (nat_of_int n) a)

let t4_of v : nat -> nat -> nat -> nat -> float =
  let a = Array.of_list (List.map (fun b -> Array.of_list (List.map (fun c -> Array.of_list (List.map (fun h ->
            Array.of_list (List.map getf (getl h))) (getl c))) (getl b))) (getl v)) in
  fun b c h w -> let b = int_of_nat b and c = int_of_nat c and h = int_of_nat h and w = int_of_nat w in
    if b < Array.length a && c < Array.length a.(b) && h < Array.length a.(b).(c) && w < Array.length a.(b).(c).(h)
    then a.(b).(c).(h).(w) else 0.0
let geom_of = function
  | L [I b; I c; I h; I w; I o; I kh; I kw; I sh; I sw; I ph; I pw] ->
      { gB = nat_of_int b; gC = nat_of_int c; gH = nat_of_int h; gW = nat_of_int w; gO = nat_of_int o;
        gkh = nat_of_int kh; gkw = nat_of_int kw; gsh = nat_of_int sh; gsw = nat_of_int sw; gph = nat_of_int ph; gpw = nat_of_int pw }
  | _ -> failwith "geom"
let range n = List.init n (fun i -> i)

(* ---------- commands ---------- *)
let hp_of = function
  | L [S "c"; I v] -> HConst (nat_of_int v)
  | L [S "t"; L tbl] -> let a = Array.of_list (List.map (fun x -> geti x) tbl) in
      HFn (fun st -> let i = int_of_nat st in nat_of_int (if i < Array.length a then a.(i) else a.(Array.length a - 1)))
  | _ -> failwith "hp"
let kev_of = function
  | L [S "fwd"; I t] -> Fwd (t <> 0) | L [S "bwd"; I t] -> Bwd (t <> 0) | L [S "step"] -> Step
  | L [S "reset"] -> ResetBatch | L [S "save"; I i] -> Save (i <> 0)
  | L [S "load"; I ck; I c] -> Load (nat_of_int ck, c <> 0)
  | L [S "setfus"; I v] -> SetFus (nat_of_int v) | L [S "setius"; I v] -> SetIus (nat_of_int v)
  | L [S "fresh"] -> Fresh
  | _ -> failwith "event"

let run (cmd : string) (a : v) : v =
  match cmd, a with
  | "triu_idx", I n ->
      vlist (fun (i, j) -> L [vnat i; vnat j]) (triu_idx (nat_of_int n))
  | "fill_index_matrix", I n ->
      vlist (vlist vnat) (fill_index_matrix (nat_of_int n))
  | "sym_comm_outcome", L [I g; I sym; L shape] ->
      (match sym_comm_outcome (nat_of_int g) (sym <> 0) (List.map (fun x -> nat_of_int (geti x)) shape) with
       | ReturnInput -> S "return_input"
       | RaiseNonSquare -> S "raise_nonsquare"
       | Communicate k -> L [S "communicate"; vnat k])
  | ("greedy" | "greedy_ok_b" | "greedy_prop_b"), L (L work :: L groups :: I colo :: rest) ->
      let work = List.map (fun l -> List.map (function L [I f; I c] -> (nat_of_int f, z_of_int c) | _ -> failwith "factor") (getl l)) work in
      let groups = List.map (fun g -> List.map (fun r -> nat_of_int (geti r)) (getl g)) groups in
      let asg_of v = List.map (function L [I l; L fl] ->
          (nat_of_int l, List.map (function L [I f; I w] -> (nat_of_int f, nat_of_int w) | _ -> failwith "asg") fl)
          | _ -> failwith "asg") (getl v) in
      (match cmd, rest with
       | "greedy", [] ->
           vlist (fun (l, fl) -> L [vnat l; vlist (fun (f, w) -> L [vnat f; vnat w]) fl]) (greedy work groups (colo <> 0))
       | "greedy_ok_b", [a] -> vbool (greedy_ok_b work groups (colo <> 0) (asg_of a))
       | "greedy_prop_b", [a] -> vbool (greedy_prop_b work groups (colo <> 0) (asg_of a))
       | _ -> failwith "greedy args")
  | "kaisa_view", L [I w; I k; L work; a] ->
      let work = List.map (fun l -> List.map (function L [I f; I c] -> (nat_of_int f, z_of_int c) | _ -> failwith "factor") (getl l)) work in
      let asg = List.map (function L [I l; L fl] ->
          (nat_of_int l, List.map (function L [I f; I w] -> (nat_of_int f, nat_of_int w) | _ -> failwith "asg") fl)
          | _ -> failwith "asg") (getl a) in
      let ((((cr, fl), gw), rv), per) = kaisa_view (nat_of_int w) (nat_of_int k) work asg in
      let vopt f = function None -> S "none" | Some x -> f x in
      L [ vlist (vlist vnat) (fst cr); vlist (vlist vnat) (snd cr);
          vbool (fst fl); vbool (snd fl);
          vlist (vopt (vlist vnat)) gw; vlist (vlist vnat) rv;
          vlist (vlist (fun (b, s) -> L [vbool b; vopt vnat s])) per ]
  | "trace_run", L ops ->
      let op_of = function
        | L [S "call"; I n; I d; S "ret"; I v] -> Call (nat_of_int n, z_of_int d, Ret (nat_of_int v))
        | L [S "call"; I n; I d; S "raise"; I e] -> Call (nat_of_int n, z_of_int d, Raise (nat_of_int e))
        | L [S "get"; I av; I mh] -> Get ((av <> 0), (if mh < 0 then None else Some (nat_of_int mh)))
        | L [S "clear"] -> Clear
        | _ -> failwith "trace op" in
      let (_, obs) = Model.run [] (List.map op_of ops) in
      vlist (function
        | Returned v -> L [S "ret"; vnat v]
        | Raised e -> L [S "raise"; vnat e]
        | Stats s -> L [S "stats"; vlist (fun (n, (sm, dv)) -> L [vnat n; I (int_of_z sm); vnat dv]) s]
        | Cleared -> L [S "cleared"]) obs
  | "sched_run", L [L ps; L ls; L ops] ->
      let q_of = function L [I n; I d] -> { qnum = z_of_int n; qden = pos_of_int d } | _ -> failwith "q" in
      let vq q = L [I (int_of_z q.qnum); I (int_of_pos q.qden)] in
      let par = function L [S "c"; n; d] -> PConst (q_of (L [n; d])) | L [S "fn"] -> PFn | _ -> failwith "param" in
      let lam = function
        | L [] -> None
        | L tbl -> let arr = Array.of_list (List.map q_of tbl) in
                   Some (fun s -> let i = int_of_nat s in if i < Array.length arr then arr.(i) else q_of (L [I 1; I 1]))
        | _ -> failwith "lambda" in
      let p = (match List.map par ps with
        | [a; b; c; d; e; f] -> { p_fus = a; p_ius = b; p_damping = c; p_decay = d; p_kl = e; p_lr = f }
        | _ -> failwith "six params") in
      let l = (match List.map lam ls with
        | [a; b; c; d; e; f] -> { l_fus = a; l_ius = b; l_damping = c; l_decay = d; l_kl = e; l_lr = f }
        | _ -> failwith "six lambdas") in
      let op = function L [S "s"; I e] -> SchedStep (if e < 0 then None else Some (nat_of_int e)) | L [S "p"] -> PrecondStep | _ -> failwith "sop" in
      let vpar = function PConst q -> vq q | PFn -> S "fn" in
      let states = srun l (p, O) (List.map op ops) in
      L [ vbool (ctor_ok p l);
          vlist (fun (q, st) -> L [vpar q.p_fus; vpar q.p_ius; vpar q.p_damping; vpar q.p_decay; vpar q.p_kl; vpar q.p_lr; vnat st]) states ]
  | "exp_decay_q", L [L [I n; I d]; L ks] ->
      let cap = { qnum = z_of_int n; qden = pos_of_int d } in
      vlist (fun k -> match exp_decay_q cap (nat_of_int (geti k)) with
                      | None -> S "error" | Some q -> L [I (int_of_z q.qnum); I (int_of_pos q.qden)]) ks
  | "register", L [L nodes; L skipn; L skipc; I root] ->
      let nd = function
        | L [I cls; I lin; I conv; L ps; L ch] ->
            { n_cls = nat_of_int cls; n_linear = (lin <> 0); n_conv = (conv <> 0);
              n_params = List.map (fun b -> geti b <> 0) ps;
              n_children = List.map (function L [I nm; I c] -> (nat_of_int nm, (if c < 0 then None else Some (nat_of_int c))) | _ -> failwith "child") ch }
        | _ -> failwith "node" in
      let g = List.map nd nodes in
      let tbl = List.map (function L [L p; I b] -> (List.map (fun x -> nat_of_int (geti x)) p, b <> 0) | _ -> failwith "skipn") skipn in
      let sn = table_fun tbl in
      let skc = List.map (fun x -> geti x) skipc in
      let sc c = List.mem (int_of_nat c) skc in
      let r = nat_of_int root in
      let vpath p = vlist vnat p in
      L [ vlist (fun (p, id) -> L [vpath p; vnat id]) (named_modules g r);
          vlist (fun ((p, id), k) -> L [vpath p; vnat id; S (match k with KLinear -> "linear" | KConv -> "conv")]) (register g sn sc r);
          L (List.mapi (fun i _ -> let (a, b) = hooks g sn sc r (nat_of_int i) in L [vnat a; vnat b]) nodes) ]
  | "neox_view", L [I p; I d; I m; L invs] ->
      let ((ad, am), ap), per = neox_view (nat_of_int p) (nat_of_int d) (nat_of_int m) (List.map (fun x -> nat_of_int (geti x)) invs) in
      let vll = vlist (vlist vnat) in
      L [ vll ad; vll am; vll ap;
          vlist (fun ((((dp, mp), sp), (kind, trace)), qs) ->
            L [ vlist vnat dp; vlist vnat mp; vlist vnat sp; vnat kind; vll trace;
                vlist (fun ((fw, src), gw) -> L [vnat fw; vnat src; vbool gw]) qs ]) per ]
  | "neox_trace_old", L [I d; I m; I r] -> vlist (vlist vnat) (newgroup_trace_old (nat_of_int d) (nat_of_int m) (nat_of_int r))
  | ("neox_greedy" | "neox_ok_b"), L (L peers :: L names :: L work :: rest) ->
      let work = List.map (fun l -> List.map (function L [I f; I c] -> (nat_of_int f, z_of_int c) | _ -> failwith "factor") (getl l)) work in
      let peers = List.map (fun x -> nat_of_int (geti x)) peers and names = List.map (fun x -> nat_of_int (geti x)) names in
      (match cmd, rest with
       | "neox_greedy", [] -> vlist (fun (l, fl) -> L [vnat l; vlist (fun (f, w) -> L [vnat f; vnat w]) fl]) (neox_greedy peers names work)
       | "neox_ok_b", [a] ->
           let asg = List.map (function L [I l; L fl] ->
             (nat_of_int l, List.map (function L [I f; I w] -> (nat_of_int f, nat_of_int w) | _ -> failwith "asg") fl) | _ -> failwith "asg") (getl a) in
           vbool (neox_ok_b peers names work asg)
       | _ -> failwith "neox args")
  | "bucket_run", L [I cap; L ops] ->
      let op = function
        | L [S "add"; I g; I k; I t; I n; I e; I d] ->
            Add (nat_of_int g, { i_key = nat_of_int k; i_tid = nat_of_int t; i_numel = nat_of_int n; i_esize = nat_of_int e; i_dtype = nat_of_int d })
        | L [S "flush"] -> Flush
        | _ -> failwith "bop" in
      let (st, em) = brun (nat_of_int cap) [] (List.map op ops) in
      L [ vlist (fun b -> L [ vnat (match b with it :: _ -> it.i_key | [] -> O);
                              vlist (fun (((t, o), n)) -> L [vnat t; vnat o; vnat n]) (offsets b O) ]) em;
          vlist (fun (k, ob) -> L [vnat k; (match ob with None -> S "none" | Some b -> vlist (fun it -> vnat it.i_tid) b)]) st ]
  | "proj_ok", L [L members; L logs] ->
      let members = List.map (fun g -> List.map (fun r -> nat_of_int (geti r)) (getl g)) members in
      let inst = function L [I g; I k; I n; I d; I r] ->
          { igrp = nat_of_int g; ikind = nat_of_int k; inumel = nat_of_int n; idtype = nat_of_int d; iroot = nat_of_int r }
        | _ -> failwith "inst" in
      let logs = List.map (fun l -> List.map inst (getl l)) logs in
      (match global_order members logs with
       | None -> I 0
       | Some l -> L [I 1; vnat (length l)])
  | "pre_inverse", L [I m; I n; ginv; ainv; d] ->
      vmat m n (pre_inverse fops (nat_of_int m) (nat_of_int n) (mat_of ginv) (mat_of ainv) (mat_of d))
  | "pre_eigen", L [I m; I n; qg; dg; qa; da; lam; d] ->
      vmat m n (pre_eigen fops (nat_of_int m) (nat_of_int n) (mat_of qg) (clamp fops (vec_of dg)) (mat_of qa) (clamp fops (vec_of da)) (getf lam) (mat_of d))
  | "pre_eigen_prediv", L [I m; I n; qg; dg; qa; da; lam0; d] ->
      vmat m n (pre_eigen_prediv fops (nat_of_int m) (nat_of_int n) (mat_of qg) (mat_of qa)
                  (dgda_of fops (clamp fops (vec_of dg)) (clamp fops (vec_of da)) (getf lam0)) (mat_of d))
  | "clip", L [lr; kl; L layers] ->
      (* layers in the order the code visits them; each [m, nw, has_bias, V, D] *)
      let lay = function L [I m; I nw; I hb; v; d] ->
          { cm = nat_of_int m; cnw = nat_of_int nw; cbias = (hb <> 0); cV = mat_of v; cD = mat_of d }
        | _ -> failwith "clayer" in
      let ls = List.map lay layers in
      let s = vg_sum fops (getf lr) ls in
      (match kl with
       | S "none" -> L [vf s; S "none"]
       | k -> L [vf s; vf (nu fops (getf k) s)])
  | "extract_patches", L [g; x] ->
      let g = geom_of g in let x = t4_of x in
      let pt = extract_patches fops g x in
      let bb = int_of_nat g.gB and oh = int_of_nat (out_h g) and ow = int_of_nat (out_w g) and nf = int_of_nat (nfeat g) in
      L (List.map (fun b -> L (List.map (fun p -> L (List.map (fun q -> L (List.map (fun f ->
           vf (pt (nat_of_int b) (nat_of_int p) (nat_of_int q) (nat_of_int f))) (range nf))) (range ow))) (range oh))) (range bb))
  | "conv_grad_matrix", L [g; I hb; go; x] ->
      let g = geom_of g in
      let gm = grad_matrix fops g (hb <> 0) (t4_of go) (t4_of x) in
      vmat (int_of_nat g.gO) (int_of_nat (nfeat g) + (if hb <> 0 then 1 else 0)) gm
  | "conv_fwd", L [g; w; bias; x] ->
      let g = geom_of g in
      let out = conv_fwd fops g (t4_of w) (vec_of bias) (t4_of x) in
      let bb = int_of_nat g.gB and oh = int_of_nat (out_h g) and ow = int_of_nat (out_w g) and oo = int_of_nat g.gO in
      L (List.map (fun b -> L (List.map (fun o -> L (List.map (fun p -> L (List.map (fun q ->
           vf (out (nat_of_int b) (nat_of_int o) (nat_of_int p) (nat_of_int q))) (range ow))) (range oh))) (range oo))) (range bb))
  | "lin_grad_matrix", L [I rows; I nin; I nout; I hb; go; a] ->
      vmat nout (nin + (if hb <> 0 then 1 else 0))
        (lin_grad_matrix fops (nat_of_int rows) (nat_of_int nin) (hb <> 0) (mat_of go) (mat_of a))
  | "factor_update", L [prev; alpha; L spec; L ranks] ->
      (* spec: ["lin_a", nin, has_bias] | ["lin_g", nout, scale|"none"] | ["conv_a", geom, has_bias] | ["conv_g", geom, scale|"none"] *)
      let sc = function S "none" -> None | v -> Some (getf v) in
      let rows_of m = nat_of_int (List.length (getl m)) in
      let (n, one) = (match spec with
        | [S "lin_a"; I nin; I hb] -> (nin + (if hb <> 0 then 1 else 0), (fun m -> lin_a fops (rows_of m) (nat_of_int nin) (hb <> 0) (mat_of m)))
        | [S "lin_g"; I nout; s] -> (nout, (fun m -> lin_g fops (rows_of m) (nat_of_int nout) (unscaled fops (sc s) (mat_of m))))
        | [S "conv_a"; g; I hb] -> let g = geom_of g in
            (int_of_nat (nfeat g) + (if hb <> 0 then 1 else 0), (fun x -> conv_a fops g (hb <> 0) (t4_of x)))
        | [S "conv_g"; g; s] -> let g = geom_of g in
            (int_of_nat g.gO, (fun x -> conv_g fops g (unscaled4 fops (sc s) (t4_of x))))
        | _ -> failwith "factor spec") in
      let tabm m = let l = to_list (nat_of_int n) (nat_of_int n) m in of_list fops l in
      let prev = (match prev with L [S "identity"; _] -> mid fops | p -> mat_of p) in
      let per_rank = List.map (fun micros -> List.map (fun d -> tabm (one d)) (getl micros)) ranks in
      vmat n n (factor_update fops (getf alpha) prev per_rank)
  | "kfac_run", L [I hook; I acc; fus; ius; L events] ->
      let ev = kev_of in
      let vfid = function FNone -> S "none" | FVer (o, us) -> L [vnat o; vlist (fun (a, b) -> L [vnat a; vnat b]) us] in
      let vopt = function None -> S "none" | Some n -> vnat n in
      let vact = function
        | UpdateA (st, pa) -> L [S "ua"; vnat st; vnat pa]
        | UpdateG (st, pa) -> L [S "ug"; vnat st; vnat pa]
        | ComputeInv (a, g, st) -> L [S "ci"; vfid a; vfid g; vnat st]
        | Precondition (d, st) -> L [S "pre"; vfid d.s_a; vfid d.s_g; vnat d.s_step; vnat st]
        | Saved c -> L [S "saved"; vnat c.k_steps; vopt c.k_fus; vopt c.k_ius;
                         (match c.k_factors with None -> S "none" | Some (a, g) -> L [vfid a; vfid g])]
        | ErrNoInverse -> L [S "err"] in
      let cfg = { c_hook = (hook <> 0); c_acc = nat_of_int acc; c_fus0 = hp_of fus; c_ius0 = hp_of ius } in
      let tr = krun_trace cfg [] (init (hp_of fus) (hp_of ius)) (List.map ev events) in
      vlist (fun (acts, (((a, g), iv), st)) ->
        L [ vlist vact acts; vfid a; vfid g;
            (match iv with None -> S "none" | Some d -> L [vfid d.s_a; vfid d.s_g; vnat d.s_step]); vnat st ]) tr
  | "placement", L [I w; I k; I meth; I sym; I fsz; I isz; L layers; I fstep; I istep] ->
      let c = { pW = nat_of_int w; pk = nat_of_int k; pmeth = (match meth with 0 -> EigenPlain | 1 -> EigenPrediv | _ -> InverseM);
                psym = (sym <> 0); pfsz = nat_of_int fsz; pisz = nat_of_int isz;
                pfdt = nat_of_int 0; pidt = nat_of_int 0; pgdt = nat_of_int 0 } in
      let ls = List.map (function L [I a; I g; I wa; I wg] -> { na = nat_of_int a; ng = nat_of_int g; wa = nat_of_int wa; wg = nat_of_int wg } | _ -> failwith "player") layers in
      vlist (fun ((mem, per), comm) ->
        L [ vnat mem;
            vlist (fun ((gw, (sa, sg)), (ca, cg)) -> L [vbool gw; vnat sa; vnat sg; vbool ca; vbool cg]) per;
            vlist (fun (((kind, grp), n), root) -> L [vnat kind; vnat grp; vnat n; (match root with None -> I (-1) | Some x -> vnat x)]) comm ])
        (placement_view c ls (fstep <> 0) (istep <> 0))
  | "frame_step", L [I idt; L ps; L bufs] ->
      (* entry: [layer|-1, is_bias, value token, grad token|-1, shape, dtype, device, contig] *)
      let ent = function L [I l; I b; I v; I g; L sh; I dt; I dv; I ct] ->
          { e_layer = (if l < 0 then None else Some (nat_of_int l)); e_bias = (b <> 0); e_value = nat_of_int v;
            e_grad = (if g < 0 then None else Some (nat_of_int g,
                       { t_shape = List.map (fun x -> nat_of_int (geti x)) sh; t_dtype = nat_of_int dt; t_device = nat_of_int dv; t_contig = (ct <> 0) })) }
        | _ -> failwith "pentry" in
      let e = { fparams = List.map ent ps; fbuffers = List.map (fun x -> nat_of_int (geti x)) bufs } in
      let e' = step_env (fun l b -> nat_of_int (1000 + 2 * int_of_nat l + (if b then 1 else 0))) (nat_of_int idt) e in
      L [ vlist (fun p -> L [ (match p.e_layer with None -> I (-1) | Some l -> vnat l); vbool p.e_bias; vnat p.e_value;
                              (match p.e_grad with None -> L [] | Some (g, m) ->
                                 L [vnat g; vlist vnat m.t_shape; vnat m.t_dtype; vnat m.t_device; vbool m.t_contig]) ]) e'.fparams;
          vlist vnat e'.fbuffers;
          vlist (fun p -> vbool (touched p)) e.fparams ]
  | "neox_precondition", L [S par; I mm; I m; I n; I hb; qg; dg; qa; da; lam; L wgs; L bgs; I primary] ->
      (* returns, for every model-parallel rank j, its shard of the preconditioned gradient *)
      let par = (match par with "input" -> ParInput | _ -> ParOutput) in
      let wga = Array.of_list (List.map mat_of wgs) and bga = Array.of_list (List.map vec_of bgs) in
      let wg j = let j = int_of_nat j in if j < Array.length wga then wga.(j) else (fun _ _ -> 0.0) in
      let bg j = let j = int_of_nat j in if j < Array.length bga then bga.(j) else (fun _ -> 0.0) in
      let rows, cols = (match par with ParInput -> m, n / mm + (if hb <> 0 then 1 else 0) | ParOutput -> m / mm, n + (if hb <> 0 then 1 else 0)) in
      L (List.map (fun j ->
           vmat rows cols (neox_precondition fops par (nat_of_int mm) (nat_of_int m) (nat_of_int n) (hb <> 0)
                             (mat_of qg) (clamp fops (vec_of dg)) (mat_of qa) (clamp fops (vec_of da)) (getf lam) wg bg (nat_of_int primary) (nat_of_int j)))
         (range mm))
  | "neox_ckpt", L [I w; L stage_layers; L held; L fws; I compute] ->
      (* stage_layers: per rank [[name, inv]...]; held: per rank [[name, token]...]; fws: per rank [[name, factor_worker]...]
         returns: gathered dict as sorted assoc list; per rank after load into empty ranks: [[name, token]...]; per rank recompute flags *)
      let sl_a = Array.of_list (List.map (fun ls -> List.map (function L [I n; I i] -> { l_name = nat_of_int n; l_inv = nat_of_int i } | _ -> failwith "nlayer") (getl ls)) stage_layers) in
      let sl r = let r = int_of_nat r in if r < Array.length sl_a then sl_a.(r) else [] in
      let assoc_a v = Array.of_list (List.map (fun ls -> List.map (function L [I n; I t] -> (n, t) | _ -> failwith "assoc") (getl ls)) v) in
      let held_a = assoc_a held and fw_a = assoc_a fws in
      let heldf r n = let r = int_of_nat r in if r < Array.length held_a then (match List.assoc_opt (int_of_nat n) held_a.(r) with Some t -> Some (nat_of_int t) | None -> None) else None in
      let fwf r n = let ri = int_of_nat r in if ri < Array.length fw_a then (match List.assoc_opt (int_of_nat n) fw_a.(ri) with Some t -> nat_of_int t | None -> nat_of_int 99999) else nat_of_int 99999 in
      let g = gathered (nat_of_int w) sl heldf in
      let names = List.sort_uniq compare (List.concat (List.map (fun ls -> List.map (fun l -> int_of_nat l.l_name) ls) (Array.to_list sl_a))) in
      let saved_view = List.filter_map (fun n -> match dict_get g (nat_of_int n) with Some t -> Some (L [I n; vnat t]) | None -> None) names in
      let after = load fwf sl g (fun _ _ -> None) in
      L [ L saved_view;
          L (List.map (fun r -> L (List.filter_map (fun n -> match after (nat_of_int r) (nat_of_int n) with Some t -> Some (L [I n; vnat t]) | None -> None) names)) (range w));
          L (List.map (fun r -> L (List.filter_map (fun n -> if recomputes fwf sl g (compute <> 0) (nat_of_int r) (nat_of_int n) then Some (I n) else None) names)) (range w)) ]
  | "kfac_comm", L [I w; I k; I meth; I sym; I fsz; L [I fdt; I idt; I gdt]; L layers; I cap; I hook; I acc; fus; ius; L hevs] ->
      (* returns [members, per-rank issues [[g, kind, numel, dtype tag, root+1]...], global order] *)
      let c = { pW = nat_of_int w; pk = nat_of_int k; pmeth = (match meth with 0 -> EigenPlain | 1 -> EigenPrediv | _ -> InverseM);
                psym = (sym <> 0); pfsz = nat_of_int fsz; pisz = nat_of_int fsz;
                pfdt = nat_of_int fdt; pidt = nat_of_int idt; pgdt = nat_of_int gdt } in
      let ls = List.map (function L [I a; I g; I wa; I wg] -> { na = nat_of_int a; ng = nat_of_int g; wa = nat_of_int wa; wg = nat_of_int wg } | _ -> failwith "player") layers in
      let cfg = { c_hook = (hook <> 0); c_acc = nat_of_int acc; c_fus0 = hp_of fus; c_ius0 = hp_of ius } in
      let capo = if cap < 0 then None else Some (nat_of_int cap) in
      let hev = function
        | L [S "user"; L ns] -> HUser (List.map (fun x -> nat_of_int (geti x)) ns)
        | L [S "flush"] -> HFlush
        | e -> HK (kev_of e) in
      let h = List.map hev hevs in
      let vinst i = L [vnat i.igrp; vnat i.ikind; vnat i.inumel; vnat i.idtype; vnat i.iroot] in
      L [ vlist (vlist vnat) (kmembers c);
          L (List.map (fun r -> vlist vinst (kfac_issues cfg c capo ls (nat_of_int r) h)) (range w));
          vlist vinst (kfac_order cfg c capo ls h) ]
  | "neox_comm", L [I pp; I dd; I mm; I sym; L [I fdt; I xdt]; L stages; L evs] ->
      (* stages: per pipeline stage [[par(0 input|1 output), in, out, bias, rows, inv]...]; evs: ["fwd", i] | ["bwd", i] | ["step"] | ["user", [ns]] *)
      let c = { nP = nat_of_int pp; nD = nat_of_int dd; nM = nat_of_int mm; nsym = (sym <> 0); nfdt = nat_of_int fdt; nxdt = nat_of_int xdt } in
      let lay = function
        | L [I par; I nin; I nout; I hb; I rows; I inv] ->
            { x_par = (if par = 0 then ParInput else ParOutput); x_in = nat_of_int nin; x_out = nat_of_int nout; x_bias = (hb <> 0);
              x_rows = nat_of_int rows; x_inv = nat_of_int inv }
        | _ -> failwith "nxlayer" in
      let st_a = Array.of_list (List.map (fun ls -> List.map lay (getl ls)) stages) in
      let layers p = let p = int_of_nat p in if p < Array.length st_a then st_a.(p) else [] in
      let ev = function
        | L [S "fwd"; I i] -> NFwd (nat_of_int i) | L [S "bwd"; I i] -> NBwd (nat_of_int i) | L [S "step"] -> NStep
        | L [S "user"; L ns] -> NUser (List.map (fun x -> nat_of_int (geti x)) ns)
        | _ -> failwith "nxev" in
      let h = List.map ev evs in
      let vinst i = L [vnat i.igrp; vnat i.ikind; vnat i.inumel; vnat i.idtype; vnat i.iroot] in
      L [ vlist (vlist vnat) (nmembers c);
          L (List.map (fun r -> vlist vinst (neox_issues c layers (nat_of_int r) h)) (range (pp * dd * mm)));
          vlist vinst (neox_order c layers h) ]
  | "neox_ckpt_comm", L [I dir] ->
      L [ L (List.map vnat (save_comm (dir <> 0))); L (List.map vnat (load_comm (dir <> 0))) ]
  | _ -> failwith ("unknown command or bad argument: " ^ cmd)

let () =
  let b = Buffer.create 65536 in
  (try
    while true do
      let line = input_line stdin in
      if String.length line > 0 then begin
        let sp = try String.index line ' ' with Not_found -> String.length line in
        let cmd = String.sub line 0 sp in
        let arg = if sp < String.length line then String.sub line (sp + 1) (String.length line - sp - 1) else "[]" in
        Buffer.clear b;
        (try show b (run cmd (parse arg))
         with Failure m -> Buffer.clear b; show b (L [S "driver_error"; S m])
            | Stack_overflow -> Buffer.clear b; show b (L [S "driver_error"; S "stack overflow"]));
        print_string (Buffer.contents b); print_newline ()
      end
    done
  with End_of_file -> ())
